package main

// Bit-level front end for C04.R3 (Mask.Get / Mask.Set, and the bit sets): for every id of the build the method's SSA
// is abstractly interpreted with the id (and, for Set, the value) concrete and the mask's words symbolic at the level
// of single bits: a word is a vector of W bit expressions, each the constant 0/1 or one (possibly negated) bit of
// the receiver. Constant propagation handles any spelling of the addressing (`/ %`, `>> &`, `id - W*(id/W)`), shifts
// move vector elements, bitwise operators combine element-wise, comparisons of vectors reduce to a single bit
// literal where that is what they are. Get(id) must come out as exactly bit (id % W) of word (id / W); Set(id, v)
// must leave every bit of every word unchanged except that one, which becomes v. No solver; anything outside this
// fragment is reported as undecided.

import (
	"fmt"
	"go/constant"
	"go/token"
	"go/types"

	"golang.org/x/tools/go/ssa"
)

type bitE struct {
	kind int // 0: const 0, 1: const 1, 2: literal
	k, j int // literal: word, bit
	neg  bool
}

func (b bitE) String() string {
	switch b.kind {
	case 0:
		return "0"
	case 1:
		return "1"
	}
	s := fmt.Sprintf("w%d.%d", b.k, b.j)
	if b.neg {
		return "!" + s
	}
	return s
}

func bitNot(a bitE) bitE {
	switch a.kind {
	case 0:
		return bitE{kind: 1}
	case 1:
		return bitE{kind: 0}
	}
	a.neg = !a.neg
	return a
}

func sameLit(a, b bitE) bool { return a.kind == 2 && b.kind == 2 && a.k == b.k && a.j == b.j }

// bitOp combines two bit expressions; ok=false when the result is not a constant or a single literal.
func bitOp(op token.Token, a, b bitE) (bitE, bool) {
	switch op {
	case token.AND_NOT:
		return bitOp(token.AND, a, bitNot(b))
	case token.AND:
		if a.kind == 0 || b.kind == 0 {
			return bitE{kind: 0}, true
		}
		if a.kind == 1 {
			return b, true
		}
		if b.kind == 1 {
			return a, true
		}
		if sameLit(a, b) {
			if a.neg == b.neg {
				return a, true
			}
			return bitE{kind: 0}, true
		}
	case token.OR:
		if a.kind == 1 || b.kind == 1 {
			return bitE{kind: 1}, true
		}
		if a.kind == 0 {
			return b, true
		}
		if b.kind == 0 {
			return a, true
		}
		if sameLit(a, b) {
			if a.neg == b.neg {
				return a, true
			}
			return bitE{kind: 1}, true
		}
	case token.XOR:
		if a.kind == 0 {
			return b, true
		}
		if b.kind == 0 {
			return a, true
		}
		if a.kind == 1 {
			return bitNot(b), true
		}
		if b.kind == 1 {
			return bitNot(a), true
		}
		if sameLit(a, b) {
			if a.neg == b.neg {
				return bitE{kind: 0}, true
			}
			return bitE{kind: 1}, true
		}
	}
	return bitE{}, false
}

type bval struct {
	kind string // "int", "bool", "vec", "addr", "bit" (symbolic bool), "arr"
	i    int64
	b    bool
	vec  []bitE
	bit  bitE
	root string // addr: "recv" or alloc name
	k    int    // addr: word index, -1 whole
	arr  [][]bitE
	w    int // vec: significant width of the Go type (bits)
}

type bitInterp struct {
	fn     *ssa.Function
	words  int
	width  int
	array  bool
	env    map[ssa.Value]*bval
	cells  map[string][]bitE // "root#k" → word
	err    error
	steps  int
	params map[*ssa.Parameter]*bval
	recv   *ssa.Parameter
	cellsVal map[string]*bval // scalar / struct parameters spilled to a local cell
}

func (m *bitInterp) fail(f string, a ...interface{}) *bval {
	if m.err == nil {
		m.err = fmt.Errorf(f, a...)
	}
	return &bval{kind: "none"}
}

func (m *bitInterp) fresh(root string, k int) []bitE {
	v := make([]bitE, m.width)
	for j := range v {
		if root == "recv" {
			v[j] = bitE{kind: 2, k: k, j: j}
		} else {
			v[j] = bitE{kind: 0}
		}
	}
	return v
}

func (m *bitInterp) cell(root string, k int) []bitE {
	key := fmt.Sprintf("%s#%d", root, k)
	if v, ok := m.cells[key]; ok {
		return v
	}
	return m.fresh(root, k)
}

func constVec(n uint64, w int) []bitE {
	v := make([]bitE, w)
	for j := 0; j < w; j++ {
		if n&(1<<uint(j)) != 0 {
			v[j] = bitE{kind: 1}
		}
	}
	return v
}

func (m *bitInterp) isWordType(t types.Type) bool {
	bt, ok := t.Underlying().(*types.Basic)
	return ok && bt.Info()&types.IsUnsigned != 0 && basicWidth(bt) == m.width
}

func (m *bitInterp) val(v ssa.Value) *bval {
	if bv, ok := m.env[v]; ok {
		return bv
	}
	switch x := v.(type) {
	case *ssa.Parameter:
		if bv, ok := m.params[x]; ok {
			return bv
		}
	case *ssa.Const:
		if x.Value == nil {
			return m.fail("nil constant")
		}
		switch x.Value.Kind() {
		case constant.Bool:
			return &bval{kind: "bool", b: constant.BoolVal(x.Value)}
		case constant.Int:
			if m.isWordType(x.Type()) {
				u, _ := constant.Uint64Val(x.Value)
				return &bval{kind: "vec", vec: constVec(u, m.width)}
			}
			n, _ := constant.Int64Val(x.Value)
			return &bval{kind: "int", i: n}
		}
	}
	return m.fail("value %s (%T) is outside the fragment", v.Name(), v)
}

func (m *bitInterp) asVec(b *bval) ([]bitE, bool) {
	switch b.kind {
	case "vec":
		return b.vec, true
	case "int":
		return constVec(uint64(b.i), m.width), true
	}
	return nil, false
}

func (m *bitInterp) run(b, pred *ssa.BasicBlock) *bval {
	for m.err == nil {
		m.steps++
		if m.steps > 5000 {
			return m.fail("interpretation bound exceeded")
		}
		newv := map[ssa.Value]*bval{}
		for _, ins := range b.Instrs {
			ph, ok := ins.(*ssa.Phi)
			if !ok {
				break
			}
			for i, p := range b.Preds {
				if p == pred {
					newv[ph] = m.val(ph.Edges[i])
				}
			}
		}
		for k, v := range newv {
			m.env[k] = v
		}
		var next *ssa.BasicBlock
		for _, ins := range b.Instrs {
			switch x := ins.(type) {
			case *ssa.Phi, *ssa.DebugRef:
			case *ssa.Alloc:
				m.env[x] = &bval{kind: "addr", root: x.Name(), k: -1}
				// a spilled parameter is initialised by the following store
			case *ssa.Field:
				a := m.val(x.X)
				if a.kind == "int" || a.kind == "vec" || a.kind == "arr" {
					m.env[x] = a // single-field wrappers (ID{id}, Mask{bits})
				} else {
					return m.fail("field of an unsupported value")
				}
			case *ssa.FieldAddr:
				a := m.val(x.X)
				if a.kind != "addr" {
					return m.fail("field address of a non-address")
				}
				if m.array || a.root != "recv" {
					m.env[x] = &bval{kind: "addr", root: a.root, k: a.k}
				} else {
					m.env[x] = &bval{kind: "addr", root: a.root, k: 0}
				}
			case *ssa.IndexAddr:
				a, i := m.val(x.X), m.val(x.Index)
				if a.kind != "addr" || i.kind != "int" {
					return m.fail("word index is not a constant for this id")
				}
				if i.i < 0 || int(i.i) >= m.words {
					return m.fail("word index %d out of range", i.i)
				}
				m.env[x] = &bval{kind: "addr", root: a.root, k: int(i.i)}
			case *ssa.UnOp:
				switch x.Op {
				case token.MUL:
					a := m.val(x.X)
					if a.kind != "addr" {
						return m.fail("load through a non-address")
					}
					if sp, ok := m.env[x.X]; ok && sp.kind == "addr" && a.k < 0 {
						// whole load of a spilled scalar parameter cell
						if pv, ok := m.cellsVal[a.root]; ok {
							m.env[x] = pv
							continue
						}
					}
					if a.k < 0 {
						if !m.array && a.root == "recv" {
							m.env[x] = &bval{kind: "vec", vec: m.cell(a.root, 0)}
							continue
						}
						return m.fail("load of a whole array")
					}
					m.env[x] = &bval{kind: "vec", vec: m.cell(a.root, a.k)}
				case token.XOR:
					a, ok := m.asVec(m.val(x.X))
					if !ok {
						return m.fail("^ of a non-word")
					}
					out := make([]bitE, len(a))
					for j := range a {
						out[j] = bitNot(a[j])
					}
					m.env[x] = &bval{kind: "vec", vec: out}
				case token.NOT:
					a := m.val(x.X)
					switch a.kind {
					case "bool":
						m.env[x] = &bval{kind: "bool", b: !a.b}
					case "bit":
						m.env[x] = &bval{kind: "bit", bit: bitNot(a.bit)}
					default:
						return m.fail("! of a non-boolean")
					}
				default:
					return m.fail("unary %s", x.Op)
				}
			case *ssa.Convert:
				a := m.val(x.X)
				if a.kind == "int" && m.isWordType(x.Type()) {
					m.env[x] = &bval{kind: "vec", vec: constVec(uint64(a.i), m.width)}
				} else {
					m.env[x] = a
				}
			case *ssa.ChangeType:
				m.env[x] = m.val(x.X)
			case *ssa.BinOp:
				m.env[x] = m.binop(x, m.val(x.X), m.val(x.Y))
			case *ssa.Call:
				// a pure one-block helper over words is inlined
				sc := x.Call.StaticCallee()
				if sc == nil || theProg == nil || !theProg.isArche(sc) || len(sc.Blocks) != 1 || len(sc.Params) != len(x.Call.Args) {
					return m.fail("instruction %T is outside the fragment", ins)
				}
				for i, pr := range sc.Params {
					m.env[pr] = m.val(x.Call.Args[i])
				}
				var res *bval
				for _, hi := range sc.Blocks[0].Instrs {
					switch h := hi.(type) {
					case *ssa.BinOp:
						m.env[h] = m.binop(h, m.val(h.X), m.val(h.Y))
					case *ssa.Convert:
						a := m.val(h.X)
						if a.kind == "int" && m.isWordType(h.Type()) {
							m.env[h] = &bval{kind: "vec", vec: constVec(uint64(a.i), m.width)}
						} else {
							m.env[h] = a
						}
					case *ssa.ChangeType:
						m.env[h] = m.val(h.X)
					case *ssa.DebugRef:
					case *ssa.Return:
						if len(h.Results) != 1 {
							return m.fail("helper %s returns %d values", sc.Name(), len(h.Results))
						}
						res = m.val(h.Results[0])
					default:
						return m.fail("instruction %T in helper %s is outside the fragment", hi, sc.Name())
					}
				}
				if res == nil {
					return m.fail("helper %s has no result", sc.Name())
				}
				m.env[x] = res
			case *ssa.Store:
				a, v := m.val(x.Addr), m.val(x.Val)
				if a.kind != "addr" {
					return m.fail("store through a non-address")
				}
				if a.k < 0 {
					if !m.array && a.root == "recv" {
						if vec, ok := m.asVec(v); ok {
							m.cells["recv#0"] = vec
							continue
						}
					}
					// spill of a scalar/struct parameter
					m.cellsVal[a.root] = v
					continue
				}
				vec, ok := m.asVec(v)
				if !ok {
					return m.fail("a non-word is stored into a word")
				}
				m.cells[fmt.Sprintf("%s#%d", a.root, a.k)] = vec
			case *ssa.Jump:
				next = b.Succs[0]
			case *ssa.If:
				c := m.val(x.Cond)
				if c.kind != "bool" {
					return m.fail("branch on a symbolic condition")
				}
				if c.b {
					next = b.Succs[0]
				} else {
					next = b.Succs[1]
				}
			case *ssa.Return:
				if len(x.Results) == 0 {
					return &bval{kind: "none"}
				}
				return m.val(x.Results[0])
			default:
				return m.fail("instruction %T is outside the fragment", ins)
			}
			if m.err != nil {
				return &bval{kind: "none"}
			}
		}
		if next == nil {
			return m.fail("block without successor")
		}
		pred, b = b, next
	}
	return &bval{kind: "none"}
}

func (m *bitInterp) binop(x *ssa.BinOp, l, r *bval) *bval {
	op := x.Op
	// integer arithmetic on the (concrete) id
	if l.kind == "int" && r.kind == "int" && !m.isWordType(x.Type()) {
		switch op {
		case token.ADD:
			return &bval{kind: "int", i: l.i + r.i}
		case token.SUB:
			return &bval{kind: "int", i: l.i - r.i}
		case token.MUL:
			return &bval{kind: "int", i: l.i * r.i}
		case token.QUO:
			if r.i == 0 {
				return m.fail("division by zero")
			}
			return &bval{kind: "int", i: l.i / r.i}
		case token.REM:
			if r.i == 0 {
				return m.fail("division by zero")
			}
			return &bval{kind: "int", i: l.i % r.i}
		case token.SHR:
			return &bval{kind: "int", i: l.i >> uint(r.i)}
		case token.SHL:
			return &bval{kind: "int", i: l.i << uint(r.i)}
		case token.AND:
			return &bval{kind: "int", i: l.i & r.i}
		case token.OR:
			return &bval{kind: "int", i: l.i | r.i}
		case token.LSS:
			return &bval{kind: "bool", b: l.i < r.i}
		case token.LEQ:
			return &bval{kind: "bool", b: l.i <= r.i}
		case token.GTR:
			return &bval{kind: "bool", b: l.i > r.i}
		case token.GEQ:
			return &bval{kind: "bool", b: l.i >= r.i}
		case token.EQL:
			return &bval{kind: "bool", b: l.i == r.i}
		case token.NEQ:
			return &bval{kind: "bool", b: l.i != r.i}
		}
		return m.fail("integer operator %s", op)
	}
	// shifts of words by a concrete amount
	if op == token.SHL || op == token.SHR {
		lv, ok := m.asVec(l)
		if !ok || r.kind != "int" {
			return m.fail("shift with a symbolic amount")
		}
		out := make([]bitE, m.width)
		for j := 0; j < m.width; j++ {
			src := j - int(r.i)
			if op == token.SHR {
				src = j + int(r.i)
			}
			if src >= 0 && src < m.width {
				out[j] = lv[src]
			}
		}
		return &bval{kind: "vec", vec: out}
	}
	lv, ok1 := m.asVec(l)
	rv, ok2 := m.asVec(r)
	if ok1 && ok2 {
		switch op {
		case token.AND, token.OR, token.XOR, token.AND_NOT:
			out := make([]bitE, m.width)
			for j := 0; j < m.width; j++ {
				e, ok := bitOp(op, lv[j], rv[j])
				if !ok {
					return m.fail("bit %d combines two different bits of the mask", j)
				}
				out[j] = e
			}
			return &bval{kind: "vec", vec: out}
		case token.EQL, token.NEQ:
			// all positions equal? reduce to a constant or a single literal
			var lit *bitE
			for j := 0; j < m.width; j++ {
				a, b := lv[j], rv[j]
				if a.kind < 2 && b.kind < 2 {
					if a.kind != b.kind {
						return &bval{kind: "bool", b: op == token.NEQ}
					}
					continue
				}
				// literal vs constant / same literal
				var e bitE
				switch {
				case a.kind == 2 && b.kind < 2:
					e = a
					if b.kind == 0 {
						e = bitNot(a)
					}
				case b.kind == 2 && a.kind < 2:
					e = b
					if a.kind == 0 {
						e = bitNot(b)
					}
				case sameLit(a, b):
					if a.neg == b.neg {
						continue
					}
					return &bval{kind: "bool", b: op == token.NEQ}
				default:
					return m.fail("comparison of two different bits")
				}
				if lit != nil {
					return m.fail("comparison depends on more than one bit of the mask")
				}
				lit = &e
			}
			if lit == nil {
				return &bval{kind: "bool", b: op == token.EQL}
			}
			if op == token.NEQ {
				return &bval{kind: "bit", bit: bitNot(*lit)}
			}
			return &bval{kind: "bit", bit: *lit}
		}
	}
	if l.kind == "bool" && r.kind == "bool" {
		switch op {
		case token.EQL:
			return &bval{kind: "bool", b: l.b == r.b}
		case token.NEQ:
			return &bval{kind: "bool", b: l.b != r.b}
		}
	}
	return m.fail("operator %s on these operands is outside the fragment", op)
}

// bitAddressing checks Get and Set of a bit container for every id. owner: "Mask" (words from the build) or "bitSet".
func maskBitAddressing(p *Prog, c *maskCtx, fn *ssa.Function, isSet bool) (string, error) {
	total := c.words * c.width
	for id := 0; id < total; id++ {
		vals := []bool{false}
		if isSet {
			vals = []bool{true, false}
		}
		for _, v := range vals {
			m := &bitInterp{fn: fn, words: c.words, width: c.width, array: c.array, env: map[ssa.Value]*bval{}, cells: map[string][]bitE{}, params: map[*ssa.Parameter]*bval{}}
			m.cellsVal = map[string]*bval{}
			for i, pr := range fn.Params {
				switch {
				case i == 0:
					m.params[pr] = &bval{kind: "addr", root: "recv", k: -1}
				case typeName(pr.Type()) == "ID":
					m.params[pr] = &bval{kind: "int", i: int64(id)}
				default:
					if bt, ok := pr.Type().Underlying().(*types.Basic); ok && bt.Kind() == types.Bool {
						m.params[pr] = &bval{kind: "bool", b: v}
					} else if ok && bt.Info()&types.IsInteger != 0 {
						m.params[pr] = &bval{kind: "int", i: int64(id)}
					}
				}
			}
			res := m.run(fn.Blocks[0], nil)
			if m.err != nil {
				return "", fmt.Errorf("id %d: %v", id, m.err)
			}
			wk, wj := id/c.width, id%c.width
			if !isSet {
				okc := res.kind == "bit" && res.bit.kind == 2 && !res.bit.neg && res.bit.k == wk && res.bit.j == wj
				if !okc {
					got := res.kind
					if res.kind == "bit" {
						got = res.bit.String()
					} else if res.kind == "bool" {
						got = fmt.Sprint(res.b)
					}
					return fmt.Sprintf("Get(%d) tests %s, not bit %d of word %d", id, got, wj, wk), nil
				}
				continue
			}
			for k := 0; k < c.words; k++ {
				w := m.cell("recv", k)
				for j := 0; j < c.width; j++ {
					want := bitE{kind: 2, k: k, j: j}
					if k == wk && j == wj {
						want = bitE{kind: 0}
						if v {
							want = bitE{kind: 1}
						}
					}
					if w[j] != want {
						return fmt.Sprintf("Set(%d, %v) leaves bit %d of word %d as %s, expected %s", id, v, j, k, w[j], want), nil
					}
				}
			}
		}
	}
	return "", nil
}
