package main

import (
	"go/token"
	"go/types"
	"sort"
	"strings"

	"golang.org/x/tools/go/ssa"
)

// E-mod: which struct fields may a function write, as type-rooted access paths.
//
// A path is "T.f.g[]" : T a named struct type, then by-value nested fields, "[]" for slice/array
// elements, "{}" for map entries. A pointer load resets the root to the pointee's type. If the
// base of the path is a parameter of the function (Root >= 0), callers translate the path into
// their own frame through the argument expression ("World.registry" + ".Components").

type Write struct {
	Path string
	Root int             // parameter index the path is rooted at (receiver = 0), or -1
	Pos  token.Pos       // position of the writing instruction (in the function where it is written)
	In   *ssa.Function   // function containing the store
	Via  []*ssa.Function // call chain from the summarised function down to In (excluding the summarised function)
	Tag  string          // "" or "rolledback" (C09.R5)
}

type ModSet struct {
	W map[string]*Write // key: Path + "@" + Root
}

func newModSet() *ModSet { return &ModSet{W: map[string]*Write{}} }

func (m *ModSet) add(w *Write) bool {
	k := w.Path + "@" + itoa(w.Root)
	if old, ok := m.W[k]; ok {
		if old.Tag != "" && w.Tag == "" {
			old.Tag = ""
			return true
		}
		return false
	}
	m.W[k] = w
	return true
}

func (m *ModSet) Paths() []string {
	s := map[string]bool{}
	for _, w := range m.W {
		s[w.Path] = true
	}
	var out []string
	for k := range s {
		out = append(out, k)
	}
	sort.Strings(out)
	return out
}

func (m *ModSet) Has(pred func(path string) bool) *Write {
	var keys []string
	for k := range m.W {
		keys = append(keys, k)
	}
	sort.Strings(keys)
	for _, k := range keys {
		if pred(m.W[k].Path) {
			return m.W[k]
		}
	}
	return nil
}

func itoa(i int) string {
	if i < 0 {
		return "-"
	}
	return string(rune('0' + i))
}

const maxPathLen = 8

// addrPath computes the access path of an address (or slice/map value) expression.
// fresh=true means the location is local to this activation (not observable by anyone else).
func addrPath(v ssa.Value, depth int) (path string, root int, fresh bool, ok bool) {
	if depth > 16 {
		return "", -1, false, false
	}
	switch x := v.(type) {
	case *ssa.Parameter:
		idx := paramIndex(x)
		if n := namedOf(x.Type()); n != nil {
			if _, isPtr := x.Type().Underlying().(*types.Pointer); isPtr {
				return n.Obj().Name(), idx, false, true
			}
		}
		// slices / maps passed as parameters: elements belong to the caller
		switch x.Type().Underlying().(type) {
		case *types.Slice, *types.Map:
			return "param:" + x.Name(), idx, false, true
		}
		return "", -1, false, false
	case *ssa.Alloc:
		return "local", -1, true, true
	case *ssa.MakeSlice, *ssa.MakeMap:
		return "local", -1, true, true
	case *ssa.FieldAddr:
		b, r, f, ok := addrPath(x.X, depth+1)
		if !ok {
			return "", -1, false, false
		}
		return b + "." + fieldName(x.X.Type(), x.Field), r, f, true
	case *ssa.IndexAddr:
		b, r, f, ok := addrPath(x.X, depth+1)
		if !ok {
			return "", -1, false, false
		}
		return b + "[]", r, f, true
	case *ssa.Slice:
		return addrPath(x.X, depth+1)
	case *ssa.UnOp:
		if x.Op != token.MUL {
			return "", -1, false, false
		}
		// a loaded value: slices and maps keep the path of where they were loaded from;
		// pointers reset the root to their pointee type.
		switch t := x.Type().Underlying().(type) {
		case *types.Slice, *types.Map:
			return addrPath(x.X, depth+1)
		case *types.Pointer:
			if n := namedOf(t); n != nil {
				return n.Obj().Name(), -1, false, true
			}
			// pointer to array etc.
			return addrPath(x.X, depth+1)
		}
		return "", -1, false, false
	case *ssa.Global:
		return "global:" + x.Name(), -1, false, true
	case *ssa.Phi:
		// several possible bases: use the pointee type
		if n := namedOf(x.Type()); n != nil {
			return n.Obj().Name(), -1, false, true
		}
		// slice phi (append patterns): take the first edge that resolves
		for _, e := range x.Edges {
			if p, r, f, ok := addrPath(e, depth+1); ok && !f {
				return p, r, f, true
			}
		}
		return "local", -1, true, true
	case *ssa.Call:
		// append(s, ...) returns a slice sharing (or replacing) s
		if b, ok := x.Call.Value.(*ssa.Builtin); ok && b.Name() == "append" {
			return addrPath(x.Call.Args[0], depth+1)
		}
		if n := namedOf(x.Type()); n != nil {
			if _, isPtr := x.Type().Underlying().(*types.Pointer); isPtr {
				return n.Obj().Name(), -1, false, true
			}
		}
		return "", -1, false, false
	case *ssa.Extract, *ssa.TypeAssert, *ssa.ChangeType, *ssa.MakeInterface, *ssa.Lookup, *ssa.Field, *ssa.Index, *ssa.FreeVar:
		if n := namedOf(v.Type()); n != nil {
			if _, isPtr := v.Type().Underlying().(*types.Pointer); isPtr {
				return n.Obj().Name(), -1, false, true
			}
		}
		return "", -1, false, false
	case *ssa.Convert:
		return "", -1, false, false // unsafe conversions: raw memory, deliberately not a field write
	}
	return "", -1, false, false
}

func paramIndex(p *ssa.Parameter) int {
	for i, q := range p.Parent().Params {
		if q == p {
			return i
		}
	}
	return -1
}

// directWrites lists the writes an instruction performs itself.
func directWrites(ins ssa.Instruction) []*Write {
	mk := func(addr ssa.Value, suffix string) []*Write {
		path, root, fresh, ok := addrPath(addr, 0)
		if !ok || fresh {
			return nil
		}
		path += suffix
		if strings.Count(path, ".")+strings.Count(path, "[]") > maxPathLen {
			return nil
		}
		return []*Write{{Path: path, Root: root, Pos: posOf(ins), In: ins.Parent()}}
	}
	switch x := ins.(type) {
	case *ssa.Store:
		return mk(x.Addr, "")
	case *ssa.MapUpdate:
		return mk(x.Map, "{}")
	case *ssa.Call:
		if b, ok := x.Call.Value.(*ssa.Builtin); ok {
			switch b.Name() {
			case "delete":
				return mk(x.Call.Args[0], "{}")
			case "copy":
				return mk(x.Call.Args[0], "[]")
			case "clear":
				return mk(x.Call.Args[0], "[]")
			}
		}
	}
	return nil
}

// translate maps a callee write into the caller's frame at a call site.
func translate(w *Write, site ssa.CallInstruction, callee *ssa.Function) *Write {
	nw := &Write{Path: w.Path, Root: -1, Pos: w.Pos, In: w.In, Tag: w.Tag}
	nw.Via = append([]*ssa.Function{callee}, w.Via...)
	if len(nw.Via) > 6 {
		nw.Via = nw.Via[:6]
	}
	if w.Root < 0 {
		return nw
	}
	args := site.Common().Args
	if site.Common().IsInvoke() {
		// receiver is Value; parameters shift by one
		if w.Root == 0 {
			return nw
		}
		if w.Root-1 < len(args) {
			return translateArg(nw, w, args[w.Root-1])
		}
		return nw
	}
	if w.Root >= len(args) {
		return nw
	}
	return translateArg(nw, w, args[w.Root])
}

func translateArg(nw, w *Write, arg ssa.Value) *Write {
	ap, ar, fresh, ok := addrPath(arg, 0)
	if !ok {
		return nw
	}
	if fresh {
		return nil // writes into the caller's own locals
	}
	// callee path "T.rest" → ap + ".rest"
	rest := ""
	if i := strings.IndexAny(w.Path, ".[{"); i >= 0 {
		rest = w.Path[i:]
	}
	nw.Path = ap + rest
	nw.Root = ar
	if strings.Count(nw.Path, ".")+strings.Count(nw.Path, "[]") > maxPathLen {
		return nil
	}
	return nw
}

// Mod computes the transitive mod-set of fn (memoised; recursion handled by a global fixpoint).
func (p *Prog) Mod(fn *ssa.Function) *ModSet {
	if p.modMemo == nil || len(p.modMemo) == 0 {
		p.computeMods()
	}
	if m, ok := p.modMemo[fn]; ok {
		return m
	}
	return newModSet()
}

func (p *Prog) computeMods() {
	for _, fn := range p.Funcs {
		m := newModSet()
		for _, b := range fn.Blocks {
			for _, ins := range b.Instrs {
				for _, w := range directWrites(ins) {
					m.add(w)
				}
			}
		}
		p.modMemo[fn] = m
	}
	for iter := 0; iter < 20; iter++ {
		changed := false
		for _, fn := range p.Funcs {
			m := p.modMemo[fn]
			for _, site := range callsIn(fn) {
				callees, boundary := p.Callees(site)
				if boundary {
					continue
				}
				for _, g := range callees {
					gm, ok := p.modMemo[g]
					if !ok {
						continue
					}
					for _, k := range sortedKeys(gm.W) {
						if nw := translate(gm.W[k], site, g); nw != nil {
							if m.add(nw) {
								changed = true
							}
						}
					}
				}
			}
		}
		if !changed {
			break
		}
	}
}

func sortedKeys(m map[string]*Write) []string {
	var ks []string
	for k := range m {
		ks = append(ks, k)
	}
	sort.Strings(ks)
	return ks
}

// SiteMod gives the writes a call site may perform, in the caller's frame.
func (p *Prog) SiteMod(site ssa.CallInstruction) *ModSet {
	out := newModSet()
	callees, boundary := p.Callees(site)
	if boundary {
		return out
	}
	for _, g := range callees {
		gm := p.Mod(g)
		for _, k := range sortedKeys(gm.W) {
			if nw := translate(gm.W[k], site, g); nw != nil {
				out.add(nw)
			}
		}
	}
	return out
}

func (p *Prog) chain(w *Write) string {
	var parts []string
	for _, f := range w.Via {
		parts = append(parts, p.FuncName(f))
	}
	if len(parts) == 0 {
		return p.Pos(w.Pos)
	}
	return strings.Join(parts, " → ") + " at " + p.Pos(w.Pos)
}

// ---------- state classes (DESIGN §1.3) ----------

func hasSeg(path, seg string) bool {
	// seg like "World.entities": matches at start or after a reset ("…")
	return path == seg || strings.HasPrefix(path, seg+".") || strings.HasPrefix(path, seg+"[") || strings.HasPrefix(path, seg+"{")
}

func anySeg(path string, segs ...string) bool {
	for _, s := range segs {
		if hasSeg(path, s) {
			return true
		}
	}
	return false
}

// S_core: which entities exist and where they are.
func isCore(path string) bool {
	return anySeg(path, "World.entities", "World.targetEntities", "World.entityPool.entities", "World.entityPool.next", "World.entityPool.available",
		"entityPool.entities", "entityPool.next", "entityPool.available", "archetype.len", "bitSet.data")
}

// S_graph: nodes, tables and their bookkeeping.
func isGraph(path string) bool {
	if anySeg(path, "World.nodes", "World.nodeData", "World.archetypes", "World.archetypeData", "World.nodePointers", "World.relationNodes") {
		return true
	}
	for _, t := range []string{"nodeData.", "archNode.", "archetypeData.", "archetype.", "archetypeAccess.", "cacheEntry.Archetypes", "cacheEntry.Indices", "layout."} {
		if strings.HasPrefix(path, t) {
			return true
		}
	}
	return false
}

// S_reg rooted at World.registry (component registry; NOT the resource registry).
func isCompRegistry(path string) bool { return hasSeg(path, "World.registry") }

func isStructural(path string) bool { return isCore(path) || isGraph(path) || isCompRegistry(path) }
