package main

// Rules added after the sixth round of seeded changes (DESIGN §6): each was missed by the rules that existed.

import (
	"fmt"
	"go/token"
	"go/types"
	"sort"
	"strings"

	"golang.org/x/tools/go/ssa"
)

// ---------- configuration setters replace ----------

// exchangeSettersReplace: the methods of generic.Exchange that store the add / remove id lists store a value that does
// not depend on the list stored before ("Adds sets …", "Removes sets …"): re-configuring a helper replaces the list.
func exchangeSettersReplace(p *Prog, r *Reporter) {
	n := 0
	for _, fn := range p.Funcs {
		if fn.Pkg == nil || fn.Pkg.Pkg.Name() != "generic" || typeName(recvType(fn)) != "Exchange" || len(fn.Params) == 0 {
			continue
		}
		for _, b := range fn.Blocks {
			for _, ins := range b.Instrs {
				st, ok := ins.(*ssa.Store)
				if !ok {
					continue
				}
				fa, ok := st.Addr.(*ssa.FieldAddr)
				if !ok || fa.X != fn.Params[0] {
					continue
				}
				f := fieldName(fa.X.Type(), fa.Field)
				if f != "add" && f != "remove" {
					continue
				}
				n++
				// does the stored value read the same field?
				dep := false
				seen := map[ssa.Value]bool{}
				var walk func(v ssa.Value, d int)
				walk = func(v ssa.Value, d int) {
					if v == nil || d > 8 || seen[v] || dep {
						return
					}
					seen[v] = true
					if u, ok := v.(*ssa.UnOp); ok && u.Op == token.MUL {
						if g, ok := u.X.(*ssa.FieldAddr); ok && g.X == fa.X && g.Field == fa.Field {
							dep = true
							return
						}
					}
					if ins, ok := v.(ssa.Instruction); ok {
						for _, op := range ins.Operands(nil) {
							if *op != nil {
								walk(*op, d+1)
							}
						}
					}
				}
				walk(st.Val, 0)
				r.Check(!dep, p.FuncName(fn), "stores Exchange."+f, p.Pos(st.Pos()), "the new "+f+" list replaces the old one (the stored value does not read Exchange."+f+"); an accumulating setter makes a re-configured helper add/remove components of earlier configurations")
			}
		}
	}
	if n == 0 {
		r.Anchor("generic.Exchange: a method storing the add/remove list")
	}
}

// ---------- relation filters are looked at unwrapped ----------

// relationAssertUnwrapped: a function that receives a Filter and tests it for *RelationFilter (to read the target) has
// dealt with the registered-filter wrapper first: the same value is tested for *CachedFilter in a dominating block and
// the wrapper branch never reaches the relation test. Otherwise a registered relation filter loses its target there.
func relationAssertUnwrapped(p *Prog, r *Reporter) {
	// wrapperHandledAt: the *CachedFilter wrapper of parameter par has been dealt with on every path to block at:
	// a comma-ok test of par for *CachedFilter dominates `at` and its ok-branch never reaches `at`
	wrapperHandledAt := func(par *ssa.Parameter, at *ssa.BasicBlock) bool {
		for _, ref := range *par.Referrers() {
			tc, ok := ref.(*ssa.TypeAssert)
			if !ok || typeName(tc.AssertedType) != "CachedFilter" || !tc.CommaOk {
				continue
			}
			if !(tc.Block() == at || dominatesBlock(tc.Block(), at)) {
				continue
			}
			for _, r2 := range *tc.Referrers() {
				ex, ok := r2.(*ssa.Extract)
				if !ok || ex.Index != 1 {
					continue
				}
				for _, r3 := range *ex.Referrers() {
					iff, ok := r3.(*ssa.If)
					if !ok {
						continue
					}
					t := iff.Block().Succs[0]
					if t != at && !reaches(t, at) {
						return true
					}
				}
			}
		}
		return false
	}
	// unwrappedAtCalls: fn is unexported and every call of it passes, for parameter idx, a Filter parameter of the caller
	// whose wrapper has been handled at the call (or, recursively, is itself only called that way), or a value that is not
	// a parameter (a stored filter: registration refuses wrapped filters, queries store the inner one)
	var unwrappedAtCalls func(fn *ssa.Function, idx int, d int) bool
	unwrappedAtCalls = func(fn *ssa.Function, idx int, d int) bool {
		if d > 2 || fn.Object() == nil || fn.Object().Exported() {
			return false
		}
		k := 0
		for _, g := range p.Funcs {
			if g.Synthetic != "" {
				continue // wrappers and thunks only forward
			}
			for _, site := range callsIn(g) {
				if !isCallTo(site, fn) || idx >= len(site.Common().Args) {
					continue
				}
				k++
				a := site.Common().Args[idx]
				if ap, ok := a.(*ssa.Parameter); ok {
					if wrapperHandledAt(ap, site.Block()) {
						continue
					}
					j := -1
					for i, q := range g.Params {
						if q == ap {
							j = i
						}
					}
					if j >= 0 && unwrappedAtCalls(g, j, d+1) {
						continue
					}
					return false
				}
			}
		}
		return k > 0
	}
	n := 0
	for _, fn := range p.Funcs {
		if fn.Pkg == nil || fn.Pkg.Pkg.Name() != "ecs" {
			continue
		}
		for _, b := range fn.Blocks {
			for _, ins := range b.Instrs {
				ta, ok := ins.(*ssa.TypeAssert)
				if !ok || typeName(ta.AssertedType) != "RelationFilter" {
					continue
				}
				par, ok := ta.X.(*ssa.Parameter)
				if !ok || typeName(par.Type()) != "Filter" {
					continue
				}
				n++
				idx := -1
				for i, q := range fn.Params {
					if q == par {
						idx = i
					}
				}
				construct := fmt.Sprintf("relation test on parameter %s", par.Name())
				switch {
				case wrapperHandledAt(par, ta.Block()):
					r.OK(p.FuncName(fn), construct, p.Pos(ta.Pos()), "the registered-filter wrapper is handled before and never reaches the relation test")
				case idx >= 0 && unwrappedAtCalls(fn, idx, 0):
					r.OK(p.FuncName(fn), construct, p.Pos(ta.Pos()), "every caller of this unexported function has handled the registered-filter wrapper before the call")
				default:
					r.Bad(p.FuncName(fn), construct, p.Pos(ta.Pos()), "the filter parameter is tested for *RelationFilter without the *CachedFilter wrapper having been handled first: a registered relation filter is not a *RelationFilter, so its target is ignored here")
				}
			}
		}
	}
	if n == 0 {
		r.Anchor("a *RelationFilter test on a Filter parameter in package ecs")
	}
}

// ---------- the archetype → position map holds positions ----------

func indexMapValuesArePositions(p *Prog, r *Reporter) {
	n := 0
	for _, fn := range p.Funcs {
		if fn.Pkg == nil || fn.Pkg.Pkg.Name() != "ecs" {
			continue
		}
		for _, b := range fn.Blocks {
			for k, ins := range b.Instrs {
				mu, ok := ins.(*ssa.MapUpdate)
				if !ok {
					continue
				}
				if _, f, _, ok := loadedField(mu.Map); !ok || f != "Indices" {
					continue
				}
				n++
				key := mu.Key
				val := stripConvs(mu.Value)
				why := ""
				// (a) key = list[i], value = i
				if u, ok := key.(*ssa.UnOp); ok && u.Op == token.MUL {
					if ia, ok := u.X.(*ssa.IndexAddr); ok && stripConvs(ia.Index) == val {
						why = "the key is the element at the position stored"
					}
				}
				// (b) key = list.Get(idx), value = idx
				if c := callOf(key); c != nil && why == "" {
					if sc := c.Common().StaticCallee(); sc != nil && cname(sc) == "Get" && len(c.Call.Args) == 2 && stripConvs(c.Call.Args[1]) == val {
						why = "the key is read from the position stored"
					}
				}
				// (c) value = list.Len()-1 right after list.Add(key)
				if bo, ok := val.(*ssa.BinOp); ok && why == "" && bo.Op == token.SUB {
					if c, isC := bo.Y.(*ssa.Const); isC && c.Value != nil && c.Int64() == 1 {
						// the list whose length is taken: list.Len(), or len(list.pointers) written out
						var list ssa.Value
						if lc := callOf(stripConvs(bo.X)); lc != nil {
							if sc := lc.Common().StaticCallee(); sc != nil && cname(sc) == "Len" && len(lc.Call.Args) == 1 {
								list = lc.Call.Args[0]
							} else if bi, ok := lc.Call.Value.(*ssa.Builtin); ok && bi.Name() == "len" {
								if u, ok := lc.Call.Args[0].(*ssa.UnOp); ok && u.Op == token.MUL {
									if fa, ok := u.X.(*ssa.FieldAddr); ok && fieldName(fa.X.Type(), fa.Field) == "pointers" {
										list = fa.X
									}
								}
							}
						}
						if list != nil {
							// an Add(key) before, in this block or a dominating one, with no other Add/RemoveAt in between in this block
							for _, site := range callsIn(fn) {
								sc := site.Common().StaticCallee()
								if sc == nil || cname(sc) != "Add" || len(site.Common().Args) != 2 || site.Common().Args[1] != key {
									continue
								}
								if !sameFieldAddr(site.Common().Args[0], list) {
									continue
								}
								if site.Block() == b {
									for j := 0; j < k; j++ {
										if b.Instrs[j] == site.(ssa.Instruction) {
											why = "the key was appended just before and the value is the new last position"
										}
									}
								} else if dominatesBlock(site.Block(), b) {
									why = "the key was appended before and the value is the new last position"
								}
							}
						}
					}
				}
				construct := fmt.Sprintf("Indices[…] = … #%d", n)
				if why != "" {
					r.OK(p.FuncName(fn), construct, p.Pos(mu.Pos()), why)
				} else {
					r.Bad(p.FuncName(fn), construct, p.Pos(mu.Pos()), "the value stored for an archetype ("+exprString(mu.Value)+") is not the position at which that archetype sits in the filter's list (the range index of the element, the index it was read from, or Len()-1 right after Add): removal by this position then removes a different archetype")
				}
			}
		}
	}
	if n == 0 {
		r.Anchor("a store into cacheEntry.Indices")
	}
}

// sameFieldAddr: the same SSA value, or the same field chain over the same SSA value (go/ssa re-materialises &x.f).
func sameFieldAddr(a, b ssa.Value) bool {
	if a == b {
		return true
	}
	fa, ok1 := a.(*ssa.FieldAddr)
	fb, ok2 := b.(*ssa.FieldAddr)
	return ok1 && ok2 && fa.Field == fb.Field && sameFieldAddr(fa.X, fb.X)
}

// ---------- queries opened inside the library are run to the end ----------

func internalQueriesExhausted(p *Prog, r *Reporter) {
	n := 0
	for _, fn := range p.Funcs {
		if !p.isArche(fn) {
			continue
		}
		for _, b := range fn.Blocks {
			for _, ins := range b.Instrs {
				al, ok := ins.(*ssa.Alloc)
				if !ok || typeName(al.Type()) != "Query" {
					continue
				}
				if pt, ok := al.Type().Underlying().(*types.Pointer); !ok || namedOf(pt.Elem()) == nil || namedOf(pt.Elem()).Obj().Pkg() == nil || namedOf(pt.Elem()).Obj().Pkg().Name() != "ecs" {
					continue
				}
				// a local query: initialised from a call, used only as a method receiver / for field access
				fromCall, local := false, true
				for _, ref := range *al.Referrers() {
					switch x := ref.(type) {
					case *ssa.Store:
						if x.Addr == al {
							if callOf(x.Val) != nil {
								fromCall = true
							}
						} else {
							local = false
						}
					case ssa.CallInstruction:
						if len(x.Common().Args) == 0 || x.Common().Args[0] != al || x.Common().StaticCallee() == nil {
							local = false
						}
					case *ssa.FieldAddr, *ssa.DebugRef:
					default:
						local = false
					}
				}
				if !fromCall || !local {
					continue
				}
				n++
				mf := &MustFlow{Fn: fn,
					InstrGen: func(i ssa.Instruction) bool {
						c, ok := i.(ssa.CallInstruction)
						if !ok || len(c.Common().Args) == 0 || c.Common().Args[0] != al {
							return false
						}
						sc := c.Common().StaticCallee()
						return sc != nil && cname(sc) == "Close"
					},
					EdgeGen: func(x *ssa.BasicBlock, k int) bool {
						atom, holds, ok := edgeCond(x, k)
						if !ok || holds {
							return false
						}
						c := callOf(atom)
						if c == nil || len(c.Call.Args) == 0 || c.Call.Args[0] != al {
							return false
						}
						sc := c.Common().StaticCallee()
						return sc != nil && cname(sc) == "Next"
					},
				}
				mf.Run()
				construct := fmt.Sprintf("local query #%d", n)
				if mf.AtAllReturns() {
					r.OK(p.FuncName(fn), construct, p.Pos(al.Pos()), "every return is reached only after Next() returned false or after Close()")
				} else {
					r.Bad(p.FuncName(fn), construct, p.Pos(al.Pos()), "a query opened inside the library can be left without having been exhausted (Next() == false) or closed on some path to a return: its lock bit is never released and the world stays locked")
				}
			}
		}
	}
	// no local query at all is fine (nothing can be left open): the summary keeps the rule's obligation count non-zero
	r.OK("all library functions", "local queries", "-", fmt.Sprintf("%d functions scanned, %d queries opened and consumed locally", len(p.Funcs), n))
}

// ---------- registered-filter handles are read-only ----------

func handleParamsReadOnly(p *Prog, r *Reporter) {
	n := 0
	for _, fn := range p.Funcs {
		if !p.isArche(fn) {
			continue
		}
		for _, par := range fn.Params {
			pt, ok := par.Type().Underlying().(*types.Pointer)
			if !ok || typeName(pt.Elem()) != "CachedFilter" {
				continue
			}
			n++
			bad := token.NoPos
			var visit func(v ssa.Value, d int)
			seen := map[ssa.Value]bool{}
			visit = func(v ssa.Value, d int) {
				if d > 4 || seen[v] || v.Referrers() == nil {
					return
				}
				seen[v] = true
				for _, ref := range *v.Referrers() {
					switch x := ref.(type) {
					case *ssa.Store:
						if x.Addr == v {
							bad = x.Pos()
						}
					case *ssa.FieldAddr:
						if x.X == v {
							visit(x, d+1)
						}
					case *ssa.Phi:
						visit(x, d+1)
					}
				}
			}
			visit(par, 0)
			if bad == token.NoPos {
				r.OK(p.FuncName(fn), "handle parameter "+par.Name(), p.FnPos(fn), "the *CachedFilter handle is only read")
			} else {
				r.Bad(p.FuncName(fn), "handle parameter "+par.Name(), p.Pos(bad), "the function writes through the caller's *CachedFilter handle: a zeroed or altered handle carries another registration's id (id 0 is the first filter ever registered), so a later use of the stale handle silently addresses that other filter instead of panicking")
			}
		}
	}
	if n == 0 {
		r.Anchor("a function with a *CachedFilter parameter")
	}
}

// ---------- the old target in events is the table's ----------

type tLeaf struct {
	kind string // table, zero, other
	desc string
}

func (p *Prog) targetLeaves(v ssa.Value, d int, seen map[ssa.Value]bool, out *[]tLeaf) {
	if d > 6 || seen[v] {
		return
	}
	seen[v] = true
	switch x := v.(type) {
	case *ssa.UnOp:
		if x.Op == token.MUL {
			if fa, ok := x.X.(*ssa.FieldAddr); ok && fieldName(fa.X.Type(), fa.Field) == "RelationTarget" {
				*out = append(*out, tLeaf{"table", apath(x)})
				return
			}
			if fa, ok := x.X.(*ssa.FieldAddr); ok {
				if al, ok := fa.X.(*ssa.Alloc); ok {
					// a field of a local struct that holds a call's result
					var calls []*ssa.Call
					other := false
					for _, ref := range *al.Referrers() {
						if st, ok := ref.(*ssa.Store); ok && st.Addr == al {
							if c := callOf(st.Val); c != nil {
								calls = append(calls, c)
							} else {
								other = true
							}
						}
					}
					if len(calls) > 0 && !other {
						okAll := true
						for _, c := range calls {
							if !p.fieldOfCallLeaves(c, fa.Field, d, seen, out) {
								okAll = false
							}
						}
						if okAll {
							return
						}
					}
				}
			}
			if al, ok := x.X.(*ssa.Alloc); ok {
				k := 0
				for _, ref := range *al.Referrers() {
					if st, ok := ref.(*ssa.Store); ok && st.Addr == al {
						k++
						p.targetLeaves(st.Val, d+1, seen, out)
					}
				}
				if k == 0 {
					*out = append(*out, tLeaf{"zero", "an unassigned variable"})
				}
				return
			}
		}
	case *ssa.Field:
		if fieldName(x.X.Type(), x.Field) == "RelationTarget" {
			*out = append(*out, tLeaf{"table", apath(x)})
			return
		}
		if c, ok := x.X.(*ssa.Call); ok && p.fieldOfCallLeaves(c, x.Field, d, seen, out) {
			return
		}
	case *ssa.Phi:
		for _, e := range x.Edges {
			p.targetLeaves(e, d+1, seen, out)
		}
		return
	case *ssa.Const:
		*out = append(*out, tLeaf{"zero", "the zero entity"})
		return
	case *ssa.Parameter:
		fn := x.Parent()
		idx := -1
		for i, q := range fn.Params {
			if q == x {
				idx = i
			}
		}
		k := 0
		for _, g := range p.Funcs {
			if g.Synthetic != "" {
				continue // wrappers and thunks only forward
			}
			for _, site := range callsIn(g) {
				if isCallTo(site, fn) && idx >= 0 && idx < len(site.Common().Args) {
					k++
					p.targetLeaves(site.Common().Args[idx], d+1, seen, out)
				}
			}
		}
		if k == 0 {
			*out = append(*out, tLeaf{"other", "parameter " + x.Name() + " of a function without known callers"})
		}
		return
	case *ssa.Extract:
		if c, ok := x.Tuple.(*ssa.Call); ok {
			if sc := c.Common().StaticCallee(); sc != nil && sc.Blocks != nil {
				for _, b := range sc.Blocks {
					if ret, ok := b.Instrs[len(b.Instrs)-1].(*ssa.Return); ok && x.Index < len(ret.Results) {
						// a return of nothing but zero values is the callee's "nothing happened" answer
						allZero := true
						for _, rv := range ret.Results {
							if c, ok := rv.(*ssa.Const); !ok || !(c.Value == nil || c.IsNil()) {
								allZero = false
							}
						}
						if allZero {
							continue
						}
						p.targetLeaves(ret.Results[x.Index], d+1, seen, out)
					}
				}
				return
			}
		}
	case *ssa.Call:
		if sc := x.Common().StaticCallee(); sc != nil && sc.Blocks != nil {
			for _, b := range sc.Blocks {
				if ret, ok := b.Instrs[len(b.Instrs)-1].(*ssa.Return); ok && len(ret.Results) == 1 {
					p.targetLeaves(ret.Results[0], d+1, seen, out)
				}
			}
			return
		}
	}
	*out = append(*out, tLeaf{"other", exprString(v)})
}

// fieldOfCallLeaves: leaves of field `field` of the struct-valued result of call c: the value stored into that field at
// each return of the callee (the zero struct is the callee's "nothing happened" answer and is skipped).
func (p *Prog) fieldOfCallLeaves(c *ssa.Call, field int, d int, seen map[ssa.Value]bool, out *[]tLeaf) bool {
	sc := c.Common().StaticCallee()
	if sc == nil || sc.Blocks == nil {
		return false
	}
	k := 0
	for _, b := range sc.Blocks {
		ret, ok := b.Instrs[len(b.Instrs)-1].(*ssa.Return)
		if !ok || len(ret.Results) != 1 {
			continue
		}
		if cz, ok := ret.Results[0].(*ssa.Const); ok && cz.Value == nil {
			k++
			continue
		}
		if u, ok := ret.Results[0].(*ssa.UnOp); ok && u.Op == token.MUL {
			if al, ok := u.X.(*ssa.Alloc); ok {
				stored := false
				for _, ref := range *al.Referrers() {
					fa, ok := ref.(*ssa.FieldAddr)
					if !ok || fa.Field != field {
						continue
					}
					for _, r2 := range *fa.Referrers() {
						if st, ok := r2.(*ssa.Store); ok && st.Addr == fa {
							stored = true
							k++
							p.targetLeaves(st.Val, d+1, seen, out)
						}
					}
				}
				if !stored {
					k++
					*out = append(*out, tLeaf{"zero", "a field left unset"})
				}
				continue
			}
		}
		k++
		*out = append(*out, tLeaf{"other", exprString(ret.Results[0])})
	}
	return k > 0
}

// oldTargetProvenance: every value stored into EntityEvent.OldTarget is, on every path, the relation target read from
// a table (followed through phis, locals, parameters and results) — never the table's target on some paths and the
// zero entity on others.
func oldTargetProvenance(p *Prog, r *Reporter) {
	n := 0
	for _, fn := range p.Funcs {
		if !p.isArche(fn) {
			continue
		}
		for _, b := range fn.Blocks {
			for _, ins := range b.Instrs {
				st, ok := ins.(*ssa.Store)
				if !ok {
					continue
				}
				fa, ok := st.Addr.(*ssa.FieldAddr)
				if !ok || fieldName(fa.X.Type(), fa.Field) != "OldTarget" || typeName(fa.X.Type()) != "EntityEvent" {
					continue
				}
				n++
				var leaves []tLeaf
				p.targetLeaves(st.Val, 0, map[ssa.Value]bool{}, &leaves)
				kinds := map[string]bool{}
				var descs []string
				for _, l := range leaves {
					kinds[l.kind] = true
					descs = append(descs, l.kind+": "+l.desc)
				}
				sort.Strings(descs)
				construct := fmt.Sprintf("EntityEvent.OldTarget #%d", n)
				switch {
				case kinds["other"]:
					r.Bad(p.FuncName(fn), construct, p.Pos(st.Pos()), "the old target reported in the event is not read from a table's RelationTarget: "+strings.Join(descs, "; "))
				case kinds["table"] && kinds["zero"]:
					r.Bad(p.FuncName(fn), construct, p.Pos(st.Pos()), "the old target reported in the event is the table's target on some paths and the zero entity on others ("+strings.Join(descs, "; ")+"): on the latter the event hides the old target and computes a wrong target-changed bit")
				default:
					r.OK(p.FuncName(fn), construct, p.Pos(st.Pos()), "on every path the old target is "+strings.Join(descs, "; "))
				}
			}
		}
	}
	if n == 0 {
		r.Anchor("a store into EntityEvent.OldTarget")
	}
}

// ---------- the dump lists entities in table order ----------

// dumpAliveFromTables: every element written into the dump's list of alive ids is the id of an entity read from table
// storage (Query.Entity / archetype.GetEntity), i.e. the list is in table order — LoadEntities re-creates the rows in
// the order of that list, and later batch removals recycle ids in row order.
func dumpAliveFromTables(p *Prog, r *Reporter) {
	fn := p.Fn("ecs.(*World).DumpEntities")
	if fn == nil {
		r.Anchor("ecs.(*World).DumpEntities")
		return
	}
	n := 0
	fns := withHelpers(p, fn, 2)
	for _, g := range fns {
		for _, b := range g.Blocks {
			for _, ins := range b.Instrs {
				st, ok := ins.(*ssa.Store)
				if !ok {
					continue
				}
				ia, ok := st.Addr.(*ssa.IndexAddr)
				if !ok {
					continue
				}
				if bt, ok := st.Val.Type().Underlying().(*types.Basic); !ok || bt.Kind() != types.Uint32 {
					continue
				}
				_ = ia
				n++
				from := ""
				seen := map[ssa.Value]bool{}
				var walk func(v ssa.Value, d int)
				walk = func(v ssa.Value, d int) {
					if v == nil || d > 6 || seen[v] || from != "" {
						return
					}
					seen[v] = true
					if c := callOf(v); c != nil {
						if sc := c.Common().StaticCallee(); sc != nil && (cname(sc) == "Entity" || cname(sc) == "GetEntity") && isEntityType(c.Type()) {
							from = cname(sc)
							return
						}
					}
					switch x := v.(type) {
					case *ssa.Convert:
						walk(x.X, d+1)
					case *ssa.ChangeType:
						walk(x.X, d+1)
					case *ssa.Field:
						walk(x.X, d+1)
					case *ssa.UnOp:
						walk(x.X, d+1)
					case *ssa.FieldAddr:
						walk(x.X, d+1)
					case *ssa.Alloc:
						for _, ref := range *x.Referrers() {
							if s2, ok := ref.(*ssa.Store); ok && s2.Addr == x {
								walk(s2.Val, d+1)
							}
						}
					}
				}
				walk(st.Val, 0)
				construct := fmt.Sprintf("alive id #%d", n)
				if from != "" {
					r.OK(p.FuncName(g), construct, p.Pos(st.Pos()), "the id is that of an entity read from table storage ("+from+")")
				} else {
					r.Bad(p.FuncName(g), construct, p.Pos(st.Pos()), "the id written into the dump's alive list ("+exprString(st.Val)+") is not taken from an entity read from table storage: the list is then not in table order, the loaded world's rows differ, and batch removals recycle ids in a different order")
				}
			}
		}
	}
	if n == 0 {
		r.Anchor("DumpEntities: a uint32 element written into the alive list")
	}
}

// ---------- the registered-filter lookup comes before the lock ----------

// lookupBeforeLock: the lookup of a registered filter's entry panics for a stale handle (an illegal use that callers may
// recover from). It is never made while the function holds a lock bit it has just taken: otherwise the recovered
// panic leaves the world locked with no query open.
func lookupBeforeLock(p *Prog, r *Reporter) {
	// the panicking lookup: methods of Cache with a *CachedFilter parameter and an explicit panic
	lookups := map[*ssa.Function]bool{}
	for _, fn := range p.Funcs {
		if typeName(recvType(fn)) != "Cache" || fn.Blocks == nil {
			continue
		}
		hasHandle := false
		for _, pr := range fn.Params[1:] {
			if pt, ok := pr.Type().Underlying().(*types.Pointer); ok && typeName(pt.Elem()) == "CachedFilter" {
				hasHandle = true
			}
		}
		if !hasHandle {
			continue
		}
		for _, b := range fn.Blocks {
			if _, ok := b.Instrs[len(b.Instrs)-1].(*ssa.Panic); ok {
				lookups[fn] = true
			}
		}
	}
	if len(lookups) == 0 {
		r.Anchor("Cache: a lookup by *CachedFilter that panics for a stale handle")
		return
	}
	var reachesLookup func(fn *ssa.Function, d int, seen map[*ssa.Function]bool) bool
	reachesLookup = func(fn *ssa.Function, d int, seen map[*ssa.Function]bool) bool {
		if fn == nil || d > 3 || seen[fn] {
			return false
		}
		seen[fn] = true
		if lookups[fn] {
			return true
		}
		for _, site := range callsIn(fn) {
			if sc := site.Common().StaticCallee(); sc != nil && p.isArche(sc) && reachesLookup(sc, d+1, seen) {
				return true
			}
		}
		return false
	}
	n := 0
	for _, fn := range p.Funcs {
		if !p.isArche(fn) {
			continue
		}
		for _, b := range fn.Blocks {
			for i, ins := range b.Instrs {
				c, ok := ins.(*ssa.Call)
				if !ok {
					continue
				}
				sc := c.Common().StaticCallee()
				if sc == nil || cname(sc) != "lock" || typeName(recvType(sc)) != "World" {
					continue
				}
				n++
				// instructions that may execute while the bit is held: forward from the call until it is released or handed over
				bad := token.NoPos
				what := ""
				seenB := map[*ssa.BasicBlock]bool{}
				var walk func(x *ssa.BasicBlock, from int)
				walk = func(x *ssa.BasicBlock, from int) {
					for j := from; j < len(x.Instrs); j++ {
						site, ok := x.Instrs[j].(ssa.CallInstruction)
						if !ok {
							continue
						}
						passes := false
						for _, a := range site.Common().Args {
							if a == c {
								passes = true
							}
						}
						if passes {
							return // released (unlock) or handed to a query
						}
						if cal := site.Common().StaticCallee(); cal != nil && p.isArche(cal) && reachesLookup(cal, 0, map[*ssa.Function]bool{}) {
							bad, what = site.Pos(), cname(cal)
							return
						}
					}
					for _, s := range x.Succs {
						if !seenB[s] {
							seenB[s] = true
							walk(s, 0)
						}
					}
				}
				walk(b, i+1)
				construct := fmt.Sprintf("lock bit taken #%d", n)
				if bad == token.NoPos {
					r.OK(p.FuncName(fn), construct, p.Pos(c.Pos()), "no registered-filter lookup is made while the bit is held and not yet handed to a query")
				} else {
					r.Bad(p.FuncName(fn), construct, p.Pos(c.Pos()), "with the lock bit already taken, "+what+" (at "+p.Pos(bad)+") looks up the registered filter's entry, which panics for a stale handle: after the caller recovers, the world is locked although no query is open")
				}
			}
		}
	}
	if n == 0 {
		r.Anchor("a call of World.lock")
	}
}

// ---------- int arguments of query methods are not truncated ----------

// queryIntParamsRangeChecked: in methods of Query and World, an `int` parameter reaches a conversion to a 32-bit type only where it is
// known to be at most MaxUint32 (a dominating comparison with a constant, or a clamp): entity counts are 32 bits, so
// a larger index or step is out of range for every query and must behave so — not like its value modulo 2^32.
func queryIntParamsRangeChecked(p *Prog, r *Reporter) {
	n := 0
	for _, fn := range p.Funcs {
		if rt := typeName(recvType(fn)); fn.Pkg == nil || fn.Pkg.Pkg.Name() != "ecs" || (rt != "Query" && rt != "World") || fn.Blocks == nil {
			continue
		}
		for _, par := range fn.Params {
			bt, ok := par.Type().Underlying().(*types.Basic)
			if !ok || bt.Kind() != types.Int {
				continue
			}
			isPar := func(v ssa.Value) bool { return v == par }
			edge := func(b *ssa.BasicBlock, k int) bool {
				atom, holds, ok := edgeCond(b, k)
				if !ok {
					return false
				}
				rel, c, ok := boundOnEdge(atom, holds, isPar)
				if !ok {
					rel, c, ok = helperBound(atom, holds, isPar)
				}
				return ok && impliesAtMost(rel, c, 1<<32-1)
			}
			mf := &MustFlow{Fn: fn, EdgeGen: edge, InstrGen: func(i ssa.Instruction) bool { return boundingCall(i, par, 0) }}
			mf.Run()
			factAtEnd := func(pred, succ *ssa.BasicBlock) bool {
				if mf.Before(pred.Instrs[len(pred.Instrs)-1]) {
					return true
				}
				for k, s := range pred.Succs {
					if s == succ && edge(pred, k) {
						return true
					}
				}
				return false
			}
			for _, b := range fn.Blocks {
				for _, ins := range b.Instrs {
					cv, ok := ins.(*ssa.Convert)
					if !ok {
						continue
					}
					tt, ok := cv.Type().Underlying().(*types.Basic)
					if !ok || !(tt.Kind() == types.Uint32 || tt.Kind() == types.Int32 || tt.Kind() == types.Uint16 || tt.Kind() == types.Uint8) {
						continue
					}
					// does the parameter reach the operand (directly or through phis)?
					bad := ""
					reached := false
					seen := map[ssa.Value]bool{}
					var walk func(v ssa.Value, okHere bool)
					walk = func(v ssa.Value, okHere bool) {
						if seen[v] {
							return
						}
						seen[v] = true
						switch x := v.(type) {
						case *ssa.Parameter:
							if x == par {
								reached = true
								if !okHere {
									bad = "the parameter reaches the conversion without an upper bound"
								}
							}
						case *ssa.Phi:
							for i, e := range x.Edges {
								walk(e, factAtEnd(x.Block().Preds[i], x.Block()))
							}
						}
					}
					walk(cv.X, mf.Before(cv))
					if !reached {
						continue
					}
					n++
					construct := fmt.Sprintf("%s converted to %s", par.Name(), tt.Name())
					if bad != "" && boundedAtCalls(p, fn, par, 0) {
						r.OK(p.FuncName(fn), construct, p.Pos(cv.Pos()), "every caller of this unexported method passes a value that is known to be at most MaxUint32 at the call")
						continue
					}
					if bad == "" {
						r.OK(p.FuncName(fn), construct, p.Pos(cv.Pos()), "the int parameter is known to be at most MaxUint32 wherever it reaches the conversion")
					} else {
						r.Bad(p.FuncName(fn), construct, p.Pos(cv.Pos()), bad+": on 64-bit platforms an argument of 2^32+i is treated as i (an out-of-range index returns an entity instead of panicking, a step beyond the end lands on an entity instead of exhausting the query)")
					}
				}
			}
		}
	}
	if n == 0 {
		r.Anchor("a Query method converting an int parameter to a 32-bit type")
	}
}

// intParamBoundFlow: facts "par <= MaxUint32" in fn.
func intParamBoundFlow(fn *ssa.Function, par *ssa.Parameter) *MustFlow {
	return intParamBoundFlowD(fn, par, 0)
}

// boundingCall: the instruction calls a function that returns normally only if the argument it receives for par is at
// most MaxUint32 (a `check…` helper that panics otherwise).
func boundingCall(i ssa.Instruction, par *ssa.Parameter, d int) bool {
	site, ok := i.(ssa.CallInstruction)
	if !ok || d > 1 {
		return false
	}
	g := site.Common().StaticCallee()
	if g == nil || g.Blocks == nil || theProg == nil || !theProg.isArche(g) {
		return false
	}
	for j, a := range site.Common().Args {
		if stripConvs(a) == ssa.Value(par) && j < len(g.Params) {
			if intParamBoundFlowD(g, g.Params[j], d+1).AtAllReturns() {
				return true
			}
		}
	}
	return false
}

func intParamBoundFlowD(fn *ssa.Function, par *ssa.Parameter, d int) *MustFlow {
	mf := &MustFlow{Fn: fn, InstrGen: func(i ssa.Instruction) bool { return boundingCall(i, par, d) }, EdgeGen: func(b *ssa.BasicBlock, k int) bool {
		atom, holds, ok := edgeCond(b, k)
		if !ok {
			return false
		}
		isPar := func(v ssa.Value) bool { return v == par }
		rel, c, ok := boundOnEdge(atom, holds, isPar)
		if !ok {
			rel, c, ok = helperBound(atom, holds, isPar)
		}
		return ok && impliesAtMost(rel, c, 1<<32-1)
	}}
	mf.Run()
	return mf
}

// helperBound: the condition is a call of a one-line comparison helper (`func f(x T) bool { return conv(x) <op> C }`) on
// the selected value: the bound the helper's comparison gives for its argument.
func helperBound(atom ssa.Value, holds bool, sel func(ssa.Value) bool) (string, int64, bool) {
	c := callOf(atom)
	if c == nil {
		return "", 0, false
	}
	g := c.Common().StaticCallee()
	if g == nil || len(g.Blocks) != 1 || g.Signature.Results().Len() != 1 {
		return "", 0, false
	}
	ret, ok := g.Blocks[0].Instrs[len(g.Blocks[0].Instrs)-1].(*ssa.Return)
	if !ok {
		return "", 0, false
	}
	for i, a := range c.Call.Args {
		if !sel(stripConvs(a)) || i >= len(g.Params) {
			continue
		}
		gp := g.Params[i]
		return boundOnEdge(ret.Results[0], holds, func(v ssa.Value) bool { return v == ssa.Value(gp) })
	}
	return "", 0, false
}

// boundedAtCalls: fn is unexported and at every call the argument for par is not derived from an unbounded int parameter
// of the caller: it is a caller's parameter known ≤ MaxUint32 at the call (or bounded at the caller's callers), or not a
// parameter at all.
func boundedAtCalls(p *Prog, fn *ssa.Function, par *ssa.Parameter, d int) bool {
	if d > 2 || fn.Object() == nil || fn.Object().Exported() {
		return false
	}
	idx := -1
	for i, q := range fn.Params {
		if q == par {
			idx = i
		}
	}
	k := 0
	for _, g := range p.Funcs {
		if g.Synthetic != "" {
			continue // wrappers and thunks only forward
		}
		for _, site := range callsIn(g) {
			if !isCallTo(site, fn) || idx < 0 || idx >= len(site.Common().Args) {
				continue
			}
			k++
			a := stripConvs(site.Common().Args[idx])
			ap, ok := a.(*ssa.Parameter)
			if !ok {
				if _, isPhi := a.(*ssa.Phi); isPhi {
					return false // not followed
				}
				continue
			}
			if intParamBoundFlow(g, ap).Before(site.(ssa.Instruction)) {
				continue
			}
			if boundedAtCalls(p, g, ap, d+1) {
				continue
			}
			return false
		}
	}
	return k > 0
}

// ---------- caller-owned slices that the library appends to are copied first ----------

// paramSlicesNotGrown: a slice parameter (variadic or not) that is stored into a field is never grown or written
// through that field: if some function of the package appends to the field (and stores the result back) or assigns an
// element of it, the storing function must have copied the parameter. `append` on an adopted slice with spare capacity
// writes into the caller's backing array — two objects built from one slice then overwrite each other's elements.
func paramSlicesNotGrown(p *Prog, r *Reporter) {
	type fkey struct {
		owner string
		field string
	}
	// fields that are grown / element-written somewhere
	grown := map[fkey]string{}
	for _, fn := range p.Funcs {
		if !p.isArche(fn) {
			continue
		}
		for _, b := range fn.Blocks {
			for _, ins := range b.Instrs {
				st, ok := ins.(*ssa.Store)
				if !ok {
					continue
				}
				// field = append(field, …)
				if fa, ok := st.Addr.(*ssa.FieldAddr); ok {
					if c := callOf(st.Val); c != nil {
						if bi, ok := c.Call.Value.(*ssa.Builtin); ok && bi.Name() == "append" {
							if o, f, _, ok := loadedField(c.Call.Args[0]); ok && f == fieldName(fa.X.Type(), fa.Field) {
								grown[fkey{o, f}] = p.Pos(st.Pos())
							}
						}
					}
				}
				// field[i] = v
				if ia, ok := st.Addr.(*ssa.IndexAddr); ok {
					if o, f, _, ok := loadedField(ia.X); ok {
						if _, isSl := ia.X.Type().Underlying().(*types.Slice); isSl {
							if _, done := grown[fkey{o, f}]; !done {
								grown[fkey{o, f}] = p.Pos(st.Pos())
							}
						}
					}
				}
			}
		}
	}
	n := 0
	for _, fn := range p.Funcs {
		if !p.isArche(fn) {
			continue
		}
		for _, b := range fn.Blocks {
			for _, ins := range b.Instrs {
				st, ok := ins.(*ssa.Store)
				if !ok {
					continue
				}
				fa, ok := st.Addr.(*ssa.FieldAddr)
				if !ok {
					continue
				}
				if _, isSl := st.Val.Type().Underlying().(*types.Slice); !isSl {
					continue
				}
				// the stored value is a parameter of an exported function (possibly re-sliced)
				v := st.Val
				for {
					if sl, ok := v.(*ssa.Slice); ok {
						v = sl.X
						continue
					}
					if ct, ok := v.(*ssa.ChangeType); ok {
						v = ct.X
						continue
					}
					break
				}
				par, ok := v.(*ssa.Parameter)
				if !ok {
					continue
				}
				root := fn
				for root.Parent() != nil {
					root = root.Parent()
				}
				if root.Object() == nil || !root.Object().Exported() {
					continue
				}
				n++
				k := fkey{typeName(fa.X.Type()), fieldName(fa.X.Type(), fa.Field)}
				construct := fmt.Sprintf("stores parameter %s into %s.%s", par.Name(), k.owner, k.field)
				if at, isGrown := grown[k]; isGrown {
					r.Bad(p.FuncName(fn), construct, p.Pos(st.Pos()), "the caller's slice is adopted as "+k.owner+"."+k.field+", which the library grows or writes at "+at+": an append within the slice's spare capacity writes into the caller's backing array, so two objects built from one slice overwrite each other's elements")
				} else {
					r.OK(p.FuncName(fn), construct, p.Pos(st.Pos()), "the field is only read afterwards (never appended to or element-assigned)")
				}
			}
		}
	}
	if n == 0 {
		r.Anchor("an exported function storing a slice parameter into a field")
	}
}
