// Package fixture holds tiny positive and negative examples for the rules whose expected number of
// findings on arche is zero (C13, C19). Every run of those checks analyses this package too and
// requires exactly the functions named bad* to be reported and none of the ok* ones.
package fixture

import (
	"fmt"
	"maps"
	"math/rand"
	"sort"
	"time"
	"unsafe"
)

type table struct {
	m     map[int]*int
	order []int
	sum   int
}

var counter int

var scratch []int

var never struct {
	b bool
	x interface{}
}

// --- C13.R1: map iteration ---

func badRangeAppend(t *table) {
	for k := range t.m {
		t.order = append(t.order, k) // order of t.order depends on map iteration
	}
}

func badRangeCall(t *table) {
	for k := range t.m {
		record(t, k)
	}
}

func record(t *table, k int) { t.order = append(t.order, k) }

func badMapsDeleteFunc(t *table) {
	maps.DeleteFunc(t.m, func(k int, v *int) bool {
		record(t, k) // once per entry, in hash order
		return true
	})
}

func okMapsDeleteFunc(t *table) {
	maps.DeleteFunc(t.m, func(k int, v *int) bool { return k > 3 })
}

func okRangeDelete(t *table) {
	for k := range t.m {
		delete(t.m, k)
	}
}

func okRangeSum(t *table) int {
	s := 0
	for _, v := range t.m {
		s += *v
	}
	return s
}

func okRangeSorted(t *table) []int {
	keys := []int{}
	for k := range t.m {
		keys = append(keys, k)
	}
	sort.Ints(keys)
	return keys
}

func okRangeKeyed(t *table, dst map[int]int) {
	for k, v := range t.m {
		dst[k] = *v
	}
}

// --- C13.R2 / C19.R3: nondeterminism sources ---

func badClock() int64 { return time.Now().UnixNano() }

func badRandom() int { return rand.Intn(10) }

func badGo(t *table) {
	go record(t, 1)
}

func badChan() int {
	c := make(chan int, 1)
	c <- 1
	return <-c
}

// --- C13.R3: address-derived values ---

func badAddrOrder(a, b *int) bool {
	return uintptr(unsafe.Pointer(a)) < uintptr(unsafe.Pointer(b))
}

func badPrintPointer(a *int) string { return fmt.Sprintf("%v", a) }

func okPrintValue(a *int) string { return fmt.Sprintf("%v", *a) }

// --- C19.R1: package-level state ---

func badGlobalWrite() { counter++ }

func badGlobalScratch(n int) []int {
	scratch = scratch[:0]
	for i := 0; i < n; i++ {
		scratch = append(scratch, i)
	}
	return scratch
}

func okDeadSink(x interface{}) {
	if never.b {
		never.x = x
	}
}

func okLocalOnly(n int) int {
	s := 0
	for i := 0; i < n; i++ {
		s += i
	}
	return s
}

// --- C03.R7: wrapping unsigned bound ---

func wrapBad(idx, count, ln uint32) bool {
	end := count + ln
	return idx <= end-1 // wraps for end == 0
}

func wrapGood(idx, count, ln uint32) bool {
	end := count + ln
	if end > 0 {
		return idx <= end-1
	}
	return false
}

// --- C02.R11: bulk clear of handle storage ---

type entityPool struct {
	entities []int
}

func badBulkClear(p *entityPool) {
	clear(p.entities)
	p.entities = p.entities[:1]
}

// --- C07.R11: stale element pointer ---

type fxEntry struct {
	id   int
	list []int
}

func badStaleElement(es []fxEntry, idx int) {
	e := &es[idx]
	last := len(es) - 1
	if idx != last {
		es[idx] = es[last]
	}
	e.list = nil // clears the entry that was just moved in
}
