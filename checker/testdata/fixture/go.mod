module fixture

go 1.21
