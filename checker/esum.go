package main

import (
	"fmt"
	"sort"
	"strings"

	"golang.org/x/tools/go/ssa"
)

// E-sum: per function, the set of pairs (boolean result, number of calls to a designated callee ∈ {0,1,2+})
// over all non-panicking paths, refined on branches over callee results.

type sumPair struct {
	ret   byte // 'T', 'F', '?' (unknown bool), '-' (no bool result)
	count int  // 0,1,2 (2 = two or more)
}

type pathSummaries struct {
	p      *Prog
	target *ssa.Function // the designated callee (close function)
	memo   map[*ssa.Function]map[sumPair]bool
	busy   map[*ssa.Function]bool
}

func (s *pathSummaries) of(fn *ssa.Function) map[sumPair]bool {
	if fn == s.target {
		return map[sumPair]bool{{'-', 1}: true}
	}
	if m, ok := s.memo[fn]; ok {
		return m
	}
	if s.busy[fn] || fn.Blocks == nil || !s.p.isArche(fn) {
		return map[sumPair]bool{{'?', 0}: true}
	}
	s.busy[fn] = true
	m := s.compute(fn)
	s.busy[fn] = false
	s.memo[fn] = m
	return m
}

func retsBool(fn *ssa.Function) bool {
	res := fn.Signature.Results()
	if res.Len() == 0 {
		return false
	}
	return res.At(res.Len()-1).Type().String() == "bool"
}

type sumState struct {
	b     *ssa.BasicBlock
	count int
	bind  string // sorted "name=T;name=F" bindings of call results
}

func (s *pathSummaries) compute(fn *ssa.Function) map[sumPair]bool {
	out := map[sumPair]bool{}
	seen := map[string]bool{}
	type st struct {
		b     *ssa.BasicBlock
		count int
		bind  map[ssa.Value]byte
	}
	key := func(x st) string {
		var ks []string
		for v, t := range x.bind {
			ks = append(ks, v.Name()+"="+string(t))
		}
		sort.Strings(ks)
		return fmt.Sprintf("%d|%d|%s", x.b.Index, x.count, strings.Join(ks, ";"))
	}
	var work []st
	push := func(x st) {
		k := key(x)
		if seen[k] {
			return
		}
		seen[k] = true
		work = append(work, x)
	}
	push(st{b: fn.Blocks[0], bind: map[ssa.Value]byte{}})
	steps := 0
	for len(work) > 0 {
		steps++
		if steps > 200000 {
			return map[sumPair]bool{{'?', 2}: true}
		}
		cur := work[len(work)-1]
		work = work[:len(work)-1]
		// execute block: calls may fork
		states := []st{cur}
		for _, ins := range cur.b.Instrs {
			c, ok := ins.(*ssa.Call)
			if !ok {
				continue
			}
			callees, boundary := s.p.Callees(c)
			if boundary || len(callees) == 0 {
				continue
			}
			var next []st
			for _, x := range states {
				for _, cal := range callees {
					for pr := range s.of(cal) {
						nb := x.bind
						if pr.ret == 'T' || pr.ret == 'F' {
							nb = copyBind(x.bind)
							nb[c] = pr.ret
						}
						cnt := x.count + pr.count
						if cnt > 2 {
							cnt = 2
						}
						next = append(next, st{b: x.b, count: cnt, bind: nb})
					}
				}
			}
			states = dedup(next, func(x st) string { return key(x) })
		}
		last := cur.b.Instrs[len(cur.b.Instrs)-1]
		for _, x := range states {
			switch t := last.(type) {
			case *ssa.Return:
				ret := byte('-')
				if retsBool(fn) {
					v := t.Results[len(t.Results)-1]
					ret = '?'
					if cb, ok := constBool(v); ok {
						if cb {
							ret = 'T'
						} else {
							ret = 'F'
						}
					} else {
						a, neg := condAtom(v)
						if bv, ok := x.bind[a]; ok {
							ret = bv
							if neg {
								ret = flip(bv)
							}
						} else if ph, ok := a.(*ssa.Phi); ok {
							// phi of constants selected by predecessor: unknown which; stay '?'
							_ = ph
						}
					}
				}
				out[sumPair{ret, x.count}] = true
			case *ssa.If:
				a, neg := condAtom(t.Cond)
				if bv, ok := x.bind[a]; ok {
					val := bv
					if neg {
						val = flip(bv)
					}
					if val == 'T' {
						push(st{b: cur.b.Succs[0], count: x.count, bind: pruneBind(x.bind, cur.b.Succs[0])})
					} else {
						push(st{b: cur.b.Succs[1], count: x.count, bind: pruneBind(x.bind, cur.b.Succs[1])})
					}
				} else {
					push(st{b: cur.b.Succs[0], count: x.count, bind: pruneBind(x.bind, cur.b.Succs[0])})
					push(st{b: cur.b.Succs[1], count: x.count, bind: pruneBind(x.bind, cur.b.Succs[1])})
				}
			case *ssa.Jump:
				push(st{b: cur.b.Succs[0], count: x.count, bind: pruneBind(x.bind, cur.b.Succs[0])})
			case *ssa.Panic:
				// ignore panicking paths
			default:
				for _, su := range cur.b.Succs {
					push(st{b: su, count: x.count, bind: pruneBind(x.bind, su)})
				}
			}
		}
	}
	return out
}

func flip(b byte) byte {
	if b == 'T' {
		return 'F'
	}
	if b == 'F' {
		return 'T'
	}
	return b
}

func copyBind(m map[ssa.Value]byte) map[ssa.Value]byte {
	n := map[ssa.Value]byte{}
	for k, v := range m {
		n[k] = v
	}
	return n
}

// pruneBind keeps only bindings of values still referenced in or after block b (cheap: referenced anywhere in blocks dominated… we keep those with a referrer in a different block than their definition or in b).
func pruneBind(m map[ssa.Value]byte, b *ssa.BasicBlock) map[ssa.Value]byte {
	n := map[ssa.Value]byte{}
	for v, t := range m {
		ins, ok := v.(ssa.Instruction)
		if !ok {
			continue
		}
		keep := false
		if refs := v.Referrers(); refs != nil {
			for _, r := range *refs {
				if r.Block() != ins.Block() {
					keep = true
				}
			}
		}
		if keep {
			n[v] = t
		}
	}
	return n
}

func dedup[T any](in []T, key func(T) string) []T {
	seen := map[string]bool{}
	var out []T
	for _, x := range in {
		k := key(x)
		if !seen[k] {
			seen[k] = true
			out = append(out, x)
		}
	}
	return out
}

func pairsString(m map[sumPair]bool) string {
	var ps []string
	for pr := range m {
		c := fmt.Sprint(pr.count)
		if pr.count == 2 {
			c = "2+"
		}
		ps = append(ps, fmt.Sprintf("(%c,%s)", pr.ret, c))
	}
	sort.Strings(ps)
	return strings.Join(ps, " ")
}

// ---------- C09.R4 ----------

func c09r4(p *Prog, r *Reporter) {
	closeFn := p.Fn("ecs.(*World).closeQuery")
	if closeFn == nil {
		r.Anchor("ecs.(*World).closeQuery")
		return
	}
	ps := &pathSummaries{p: p, target: closeFn, memo: map[*ssa.Function]map[sumPair]bool{}, busy: map[*ssa.Function]bool{}}
	for _, fn := range p.Entries("ecs") {
		if typeName(recvType(fn)) != "Query" {
			continue
		}
		name := p.FuncName(fn)
		sum := ps.of(fn)
		short := cname(fn)
		allowed := map[sumPair]bool{}
		switch {
		case short == "Close":
			allowed[sumPair{'-', 1}] = true
		case retsBool(fn) && (short == "Next" || short == "Step"):
			allowed[sumPair{'T', 0}] = true
			allowed[sumPair{'F', 1}] = true
		default:
			if retsBool(fn) {
				allowed[sumPair{'T', 0}] = true
				allowed[sumPair{'F', 0}] = true
				allowed[sumPair{'?', 0}] = true
			} else {
				allowed[sumPair{'-', 0}] = true
			}
		}
		bad := map[sumPair]bool{}
		for pr := range sum {
			if !allowed[pr] {
				bad[pr] = true
			}
		}
		if len(bad) == 0 {
			r.OK(name, "close summary", p.FnPos(fn), "path summaries (result, closes): "+pairsString(sum)+" ⊆ allowed "+pairsString(allowed))
		} else {
			r.Bad(name, "close summary", p.FnPos(fn), "some path has (result, closes) "+pairsString(bad)+"; allowed are "+pairsString(allowed)+"; all: "+pairsString(sum))
		}
	}
}
