package main

import (
	"fmt"
	"os"
)

func init() {
	if n := os.Getenv("ARCHECHECK_UMOD"); n != "" {
		p, err := Load(Config{GOARCH: "amd64"})
		if err != nil {
			panic(err)
		}
		g := p.guardAnalysis()
		fn := p.Fn(n)
		for _, k := range sortedKeys(g.sum[fn].umod.W) {
			w := g.sum[fn].umod.W[k]
			fmt.Println(k, "tag="+w.Tag, p.chain(w))
		}
		fmt.Println("establishes", g.sum[fn].establishes)
		os.Exit(0)
	}
}
