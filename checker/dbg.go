package main

import (
	"fmt"
	"os"
)

func init() {
	if n := os.Getenv("ARCHECHECK_UMOD"); n != "" {
		p, err := Load(Config{GOARCH: "amd64"})
		if err != nil {
			panic(err)
		}
		g := p.guardAnalysis()
		fn := p.Fn(n)
		for _, k := range sortedKeys(g.sum[fn].umod.W) {
			w := g.sum[fn].umod.W[k]
			fmt.Println(k, "tag="+w.Tag, p.chain(w))
		}
		fmt.Println("establishes", g.sum[fn].establishes)
		os.Exit(0)
	}
}

func init() {
	if n := os.Getenv("ARCHECHECK_CALLS"); n != "" {
		p, err := Load(Config{GOARCH: "amd64"})
		if err != nil {
			panic(err)
		}
		fn := p.Fn(n)
		fmt.Println("fn", fn, "synthetic", fn.Synthetic)
		for _, c := range callsIn(fn) {
			sc := c.Common().StaticCallee()
			fmt.Printf("  call %v static=%v", c, sc)
			if sc != nil {
				fmt.Printf(" name=%s origin=%v inFuncs=%v", p.FuncName(sc), sc.Origin(), p.ByName[p.FuncName(sc)] == sc)
			}
			fmt.Println()
		}
		os.Exit(0)
	}
}
