#!/bin/bash
# ./run.sh <property> quick|thorough   — run the static check of one property against /repo's working tree
# ./run.sh explain <violation.json>    — print a violation record and re-check that obligation
# ./run.sh build                       — (re)build bin/archecheck offline
set -u
cd "$(dirname "$0")"
export GOFLAGS=-mod=mod GOPROXY=off GOSUMDB=off GOTOOLCHAIN=local GOWORK=off CGO_ENABLED=0
unset GOWORK_FILE 2>/dev/null
export GOWORK=off
build() {
  (cd checker && go build -o ../bin/archecheck .) || { echo "INFRASTRUCTURE FAILURE: cannot build the checker"; exit 2; }
}
need_build() {
  [ ! -x bin/archecheck ] && return 0
  [ -n "$(find checker \( -name '*.go' -o -name 'schema_ref.json' \) -newer bin/archecheck -print -quit)" ] && return 0
  [ checker/go.mod -nt bin/archecheck ] && return 0
  return 1
}
case "${1:-}" in
  build) mkdir -p bin; build; exit 0;;
  explain) need_build && { mkdir -p bin; build; }; exec bin/archecheck -explain "$2";;
  "") echo "usage: $0 <property> quick|thorough | explain <file> | build"; exit 2;;
esac
need_build && { mkdir -p bin; build; }
prop=$1; tier=${2:-${VERIF_TIER:-quick}}
if [ "$tier" = thorough ]; then
  # sensitivity suite first (non-fatal; its results are embedded in the evidence written by the check below)
  python3 tools/sensitivity.py "$prop" --jobs 4 || true
fi
bin/archecheck -property "$prop" -tier "$tier"
exit $?
